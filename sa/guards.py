"""GUARD engine: extracts, for a function, every conditional edge as a normalised relation between
reconstructed expressions, together with what the edge leads to (which definitions of the return
value are reachable from it) and its dominance over the accepting returns.

A *refusal guard* is an edge whose reachable return-definitions are all refusals (Err / Ok(false) /
false ...) — what counts as refusal is chosen by the rule.
"""
from expr import ExprBuilder, fmt, walk, subst

NEG = {"Eq": "Ne", "Ne": "Eq", "Lt": "Ge", "Ge": "Lt", "Gt": "Le", "Le": "Gt"}
SWAP = {"Eq": "Eq", "Ne": "Ne", "Lt": "Gt", "Gt": "Lt", "Le": "Ge", "Ge": "Le"}


def normalise_bool(e, positive=True):
    """bool-valued term + polarity -> relation tuple.
    ('rel', op, a, b) | ('variant', x, name, positive) | ('truth', e, positive) | ('and', [...]) etc."""
    if e[0] == "un" and e[1] == "Not":
        return normalise_bool(e[2], not positive)
    if e[0] == "bin" and e[1] in NEG:
        op = e[1] if positive else NEG[e[1]]
        return ("rel", op, e[2], e[3])
    if e[0] == "cteq":
        return ("rel", "Eq" if positive else "Ne", e[1], e[2], "ct")
    if e[0] == "bin" and e[1] in ("BitAnd", "BitOr") and False:
        pass
    if e[0] == "call" and e[1].endswith("::is_empty") and len(e[2]) == 1:
        return ("rel", "Eq" if positive else "Ne", ("len", e[2][0]), ("lit", 0, "usize"))
    # two-variant enums: "is not Some" is "is None" - always stated positively, like the arms of a `match`
    if e[0] == "call" and e[1].endswith("Option::<T>::is_some") and len(e[2]) == 1:
        return ("variant", e[2][0], "Some" if positive else "None", True)
    if e[0] == "call" and e[1].endswith("Option::<T>::is_none") and len(e[2]) == 1:
        return ("variant", e[2][0], "None" if positive else "Some", True)
    if e[0] == "call" and e[1].endswith("Result::<T, E>::is_ok") and len(e[2]) == 1:
        return ("variant", e[2][0], "Ok" if positive else "Err", True)
    if e[0] == "call" and e[1].endswith("Result::<T, E>::is_err") and len(e[2]) == 1:
        return ("variant", e[2][0], "Err" if positive else "Ok", True)
    return ("truth", e, positive)


class RetDef:
    __slots__ = ("block", "index", "kind", "expr", "line", "payload")

    def __repr__(self):
        return "RetDef(bb%d %s %s)" % (self.block, self.kind, fmt(self.expr) if self.expr else "")


class Edge:
    """one outgoing edge of a switch"""
    __slots__ = ("block", "target", "cond", "line", "leads", "values", "raw", "is_otherwise", "virtual", "inner_dom", "inner_conds", "home", "home_g", "home_edge", "mapping")

    def __repr__(self):
        return "Edge(bb%d->bb%d %s leads=%s)" % (self.block, self.target, fmt_cond(self.cond),
                                                sorted(set(r.kind for r in self.leads)))


def fmt_cond(c):
    if c[0] == "rel":
        return "%s %s %s%s" % (fmt(c[2]), c[1], fmt(c[3]), " [ct]" if len(c) > 4 else "")
    if c[0] == "variant":
        return "%s %s %s" % (fmt(c[1]), "is" if c[3] else "is-not", c[2])
    if c[0] == "truth":
        return "%s%s" % ("" if c[2] else "!", fmt(c[1]))
    if c[0] == "inteq":
        return "%s == %s" % (fmt(c[1]), c[2])
    if c[0] == "intother":
        return "%s ∉ %s" % (fmt(c[1]), list(c[2]))
    if c[0] == "variant_other":
        return "%s ∉ variants %s" % (fmt(c[1]), list(c[2]))
    return str(c)


class FnGuards:
    def __init__(self, prog, fn, _depth=0):
        self.prog = prog
        self.fn = fn
        self.body = fn.body
        self.eb = ExprBuilder(prog, fn)
        self.retdefs = self._retdefs()
        self._reach_cache = {}
        self.edges = self._edges()
        for e in self.edges:
            e.virtual, e.inner_dom, e.inner_conds, e.home, e.home_g, e.home_edge, e.mapping = False, True, (), None, None, None, None
        if _depth < 2 and getattr(prog, "unknown_helpers", None):
            self.edges += self._virtual_edges(_depth)

    # -- return definitions
    def _retdefs(self):
        b = self.body
        out = []
        for (bi, si, kind) in b.defs.get(0, []):
            rd = RetDef()
            rd.block = bi
            rd.index = si
            rd.payload = None
            if si == "term":
                t = b.blocks[bi].term
                rd.line = t.line
                c = t.callee
                if c.path == "std::ops::FromResidual::from_residual":
                    rd.kind = "err"
                    rd.expr = self.eb.call_expr(t)
                else:
                    rd.kind = "call"
                    rd.expr = self.eb.call_expr(t)
            else:
                s = b.blocks[bi].stmts[si]
                rd.line = s.line
                if kind == "partial":
                    rd.kind = "partial"
                    rd.expr = self.eb.rvalue(s.rv) if s.rv is not None else None
                else:
                    e = self.eb.rvalue(s.rv)
                    rd.expr = e
                    rd.kind = classify_value(e)
                    if e[0] == "agg" and len(e[2]) == 1:
                        rd.payload = e[2][0]
            out.append(rd)
        return out

    def reach(self, blk):
        if blk not in self._reach_cache:
            self._reach_cache[blk] = self.body.reach_from(blk)
        return self._reach_cache[blk]

    def leads(self, blk):
        r = self.reach(blk)
        return [rd for rd in self.retdefs if rd.block in r]

    # -- edges
    def _edges(self):
        b = self.body
        out = []
        for bi in sorted(b.reachable):
            t = b.blocks[bi].term
            if t.kind != "switch":
                continue
            de = self.eb.operand(t.discr)
            dty = None
            if t.discr.place is not None and not t.discr.place[1]:
                dty = self.prog.types[b.locals[t.discr.place[0]]]
            vals = [v for v, _ in t.switch]
            for v, tgt in t.switch:
                e = Edge()
                e.block, e.target, e.line, e.values, e.raw, e.is_otherwise = bi, tgt, t.line, (v,), de, False
                e.cond = self._cond(de, dty, v, None)
                e.leads = self.leads(tgt)
                out.append(e)
            e = Edge()
            e.block, e.target, e.line, e.values, e.raw, e.is_otherwise = bi, t.otherwise, t.line, tuple(vals), de, True
            e.cond = self._cond(de, dty, None, vals)
            e.leads = self.leads(t.otherwise)
            # an `otherwise` edge into an unreachable block is not a real edge
            if b.blocks[t.otherwise].term.kind == "unreachable" and not b.blocks[t.otherwise].stmts:
                continue
            out.append(e)
        return out

    # -- refusals that live in a helper this function calls with `?`
    def _virtual_edges(self, depth):
        """Extract-function tolerance.  A private helper that did not exist when the rules were written (it is not in
        /verif/baseline_fns.json) and whose Result is propagated with `?` contributes its refusing edges to the caller:
        condition with the helper's parameters replaced by the actual arguments, located at the `?` of the call.
        `inner_dom` records whether the edge dominates the helper's own accepting returns, `inner_conds` the (substituted)
        conditions under which it is reached inside the helper."""
        from expr import subst
        out = []
        unknown = self.prog.unknown_helpers
        for ce in list(self.edges):
            c = ce.cond
            if c[0] != "variant" or c[2] != "Break" or not c[3]:
                continue
            sub = c[1]
            if not (sub[0] == "call" and sub[4] == "std::ops::Try::branch" and sub[2]):
                continue
            kinds = set(rd.kind for rd in ce.leads)
            if not kinds or not kinds <= {"err"}:
                continue
            inner = sub[2][0]
            while isinstance(inner, tuple) and inner[0] == "call" and inner[1].split("::")[-1] in ("map_err", "ok_or", "ok_or_else") and inner[2]:
                inner = inner[2][0]
            if not (isinstance(inner, tuple) and inner[0] == "call"):
                continue
            cands = [x for x in unknown if x.body is not None and x.body.argc == len(inner[2]) and
                     (x.id == inner[3] or x.id == inner[1] or strip_generics(x.id) == strip_generics(inner[3] or "") or strip_generics(x.id) == strip_generics(inner[1]))]
            if len(cands) != 1:
                continue
            cf = cands[0]
            mapping = {i + 1: a for i, a in enumerate(inner[2])}
            g2 = FnGuards(self.prog, cf, depth + 1)
            # where control continues in the caller when the helper returns Ok
            cont = [x for x in self.edges if x.block == ce.block and x is not ce]
            for e2 in g2.edges:
                k2 = set(rd.kind for rd in e2.leads)
                refusing = bool(k2) and k2 <= {"err"}
                ve = Edge()
                ve.block, ve.target, ve.line, ve.values, ve.is_otherwise = ce.block, ce.target, e2.line, e2.values, e2.is_otherwise
                ve.raw = subst(e2.raw, mapping) if isinstance(e2.raw, tuple) else e2.raw
                ve.cond = _subst_cond(e2.cond, mapping)
                ve.leads = ce.leads if refusing else (list(ce.leads) if k2 & {"err"} else []) + [rd for x in cont for rd in x.leads]
                ve.virtual = True
                ve.home_g, ve.home_edge, ve.mapping = g2, e2, mapping
                ve.inner_dom = e2.inner_dom and g2.dominates_accepts(e2)
                ve.inner_conds = tuple(_subst_cond(x, mapping) for x in block_conditions(g2, e2.block)) + tuple(e2.inner_conds)
                ve.home = cf
                out.append(ve)
        return out

    def _variant_name(self, discr_expr, v):
        # find the enum type of the discriminated place
        return None

    def _cond(self, de, dty, v, others):
        is_bool = dty is not None and dty["k"] == "bool"
        if de[0] == "discr":
            names = self._enum_variants(de)
            if v is not None:
                return ("variant", de[1], names.get(v, str(v)), True)
            rest = [n for k, n in names.items() if k not in others]
            if len(rest) == 1:
                return ("variant", de[1], rest[0], True)
            return ("variant_other", de[1], tuple(names.get(o, str(o)) for o in others))
        if is_bool or de[0] in ("bin", "un", "cteq") and (de[0] != "bin" or de[1] in NEG):
            if v is not None:
                return normalise_bool(de, v != 0)
            if others == [0]:
                return normalise_bool(de, True)
            if others == [1]:
                return normalise_bool(de, False)
        if v is not None:
            return ("inteq", de, v)
        return ("intother", de, tuple(others))

    def _enum_variants(self, de):
        """map discriminant value -> variant name for ('discr', place-expr); uses the MIR type of the
        discriminated place, found by re-walking the switch's defining statement"""
        # we look the type up lazily: search statements `x = discr(place)` and match by expression
        b = self.body
        for bi, si, s in b.iter_stmts():
            if s.rv is not None and s.rv.kind == "discr":
                if self.eb.place(s.rv.place) == de[1]:
                    ty = self._place_type(s.rv.place)
                    if ty is not None and ty.get("variants"):
                        return {int(d): n for d, n in zip(ty["discrs"], ty["variants"])}
        return {}

    def _place_type(self, pl):
        l, proj = pl
        tix = self.body.locals[l]
        ty = self.prog.types[tix]
        for pe in proj:
            if pe == "*":
                if ty["k"] in ("ref", "ptr"):
                    ty = self.prog.types[ty["t"]]
                elif ty["k"] == "adt" and ty["path"].endswith("Box") and ty["args"]:
                    ty = self.prog.types[ty["args"][0]["t"]]
                else:
                    return None
            elif pe[0] == "f":
                if len(pe) > 3 and pe[3] is not None:
                    ty = self.prog.types[pe[3]]
                else:
                    return None
            elif pe[0] == "dc":
                continue
            elif pe[0] in ("ix", "cix"):
                if ty["k"] in ("slice", "array"):
                    ty = self.prog.types[ty["t"]]
                else:
                    return None
            else:
                return None
        return ty

    # -- queries
    def accept_defs(self, refusal_kinds):
        return [rd for rd in self.retdefs if rd.kind not in refusal_kinds and rd.kind != "partial"]

    def refusal_edges(self, refusal_kinds=("err",)):
        """edges all of whose reachable return definitions are refusals (and at least one exists)"""
        out = []
        for e in self.edges:
            kinds = set(rd.kind for rd in e.leads)
            if kinds and kinds <= set(refusal_kinds):
                out.append(e)
        return out

    def dominates_accepts(self, edge, refusal_kinds=("err",), bypass=None):
        """does the switch block of `edge` dominate every accepting return definition?
        bypass: optional predicate on Edge; edges for which it holds are *allowed* ways around the
        guard (e.g. the `joint_rand_len() == 0` side of an enclosing if) and are removed first."""
        b = self.body
        if getattr(edge, "virtual", False) and not edge.inner_dom:
            return False
        acc = self.accept_defs(refusal_kinds)
        if not acc:
            return False
        if bypass is None:
            return all(b.dominates(edge.block, rd.block) for rd in acc)
        removed = set((e.block, e.target) for e in self.edges if bypass(e))
        seen = {0}
        st = [0]
        while st:
            n = st.pop()
            if n == edge.block:
                continue
            for s in b.succ[n]:
                if (n, s) in removed or s in seen:
                    continue
                seen.add(s)
                st.append(s)
        return not any(rd.block in seen and rd.block != edge.block for rd in acc)

    def loop_of(self, blk):
        """innermost natural loop containing blk: (header, blocks) or None"""
        best = None
        for h, blocks in self.body.loops().items():
            if blk in blocks and (best is None or len(blocks) < len(best[1])):
                best = (h, blocks)
        return best

    def covers_every_iteration(self, edge, bypass=None):
        """edge's block lies in a loop and every path from the loop header to a latch (back-edge
        source) passes through it — except along `bypass` edges (allowed ways around the check)"""
        lp = self.loop_of(edge.block)
        if lp is None:
            return False
        h, blocks = lp
        latches = set(t for (t, hh) in self.body.back_edges() if hh == h)
        if bypass is None:
            return all(self.body.dominates(edge.block, t) for t in latches)
        removed = set((e.block, e.target) for e in self.edges if bypass(e))
        if edge.block == h:
            return True
        seen = {h}
        st = [h]
        while st:
            n = st.pop()
            if n in latches:
                return False
            for s in self.body.succ[n]:
                if s not in blocks or s == edge.block or (n, s) in removed or s in seen or s == h:
                    continue
                seen.add(s)
                st.append(s)
        return True


def classify_value(e):
    if e[0] == "agg":
        lab = e[1]
        if lab.endswith("Result::Ok") or lab.endswith("::Ok"):
            p = e[2][0] if e[2] else None
            if p is not None and p[0] == "lit" and p[2] == "bool":
                return "ok_true" if p[1] else "ok_false"
            return "ok"
        if lab.endswith("Result::Err") or lab.endswith("::Err"):
            return "err"
        if lab.endswith("Option::None") or lab.endswith("::None"):
            return "none"
        if lab.endswith("Option::Some") or lab.endswith("::Some"):
            return "some"
        return "agg"
    if e[0] == "lit" and e[2] == "bool":
        return "true" if e[1] else "false"
    return "val"


def dump(prog, fn):
    g = FnGuards(prog, fn)
    print("==", fn.id, fn.loc)
    for rd in g.retdefs:
        print("   ret bb%d %-8s %s  //%s" % (rd.block, rd.kind, fmt(rd.expr) if rd.expr else "", rd.line))
    for e in g.edges:
        kinds = sorted(set(r.kind for r in e.leads))
        dom = g.dominates_accepts(e)
        print("   edge bb%d->bb%d  [%s]  leads=%s dom=%s loop=%s //%s" % (
            e.block, e.target, fmt_cond(e.cond), kinds, dom, g.covers_every_iteration(e), e.line))


if __name__ == "__main__":
    import sys, glob, ir
    p = ir.load(sorted(glob.glob("/verif/.work/facts/*-K2.json"))[-1])
    for f in p.find(id_re=sys.argv[1]):
        dump(p, f)


def necessary_edges(g, block):
    """switch edges that every path from the entry to `block` must take"""
    b = g.body
    out = []
    for e in g.edges:
        # remove the edge e.block -> e.target and test reachability of block
        seen = {0}
        st = [0]
        found = False
        while st and not found:
            n = st.pop()
            for s in b.succ[n]:
                if n == e.block and s == e.target:
                    # the same (block,target) pair may be shared by several switch values; the edge
                    # is only removable if no *other* switch value goes to the same target
                    continue
                if s not in seen:
                    if s == block:
                        found = True
                        break
                    seen.add(s)
                    st.append(s)
        if block == 0:
            found = True
        if not found:
            out.append(e)
    return out


def decision_table(g, refusal_kinds=("err",)):
    """for every accepting return definition: (retdef, [conditions of necessary edges])"""
    rows = []
    for rd in g.retdefs:
        if rd.kind in refusal_kinds or rd.kind == "partial":
            continue
        rows.append((rd, [e.cond for e in necessary_edges(g, rd.block)]))
    return rows


def phi_defs(g, local):
    """every whole definition of `local` as (expr, necessary-edge conditions, block)"""
    out = []
    b = g.body
    for (bi, si, kind) in b.defs.get(local, []):
        if kind != "whole":
            continue
        if si == "term":
            e = g.eb.call_expr(b.blocks[bi].term)
        else:
            e = g.eb.rvalue(b.blocks[bi].stmts[si].rv)
        out.append((e, [x.cond for x in necessary_edges(g, bi)], bi))
    return out


def block_conditions(g, block):
    return [e.cond for e in necessary_edges(g, block)]


def _subst_phi(e, local, repl):
    if not isinstance(e, tuple) or not e:
        return e
    if e[0] == "phi" and e[1] == local:
        return repl
    out = []
    for y in e:
        if isinstance(y, tuple):
            if y and isinstance(y[0], str):
                out.append(_subst_phi(y, local, repl))
            else:
                out.append(tuple(_subst_phi(z, local, repl) if isinstance(z, tuple) else z for z in y))
        else:
            out.append(y)
    return tuple(out)


def expanded_accepts(g, refusal_kinds=("err",), depth=3, limit=64):
    """accepting returns with their merged values taken apart: when the returned term mentions a local that has several
    definitions (the result of a `match`/`if` expression stored in a variable, then wrapped once at the end), the row is
    split into one row per definition, each with the path conditions of that definition added.  `Ok(match k { A => x, B => y })`
    and `match k { A => Ok(x), B => Ok(y) }` then give the same rows: [(expr, conds, retdef)]."""
    from expr import walk
    rows = [(rd.expr, list(conds), rd) for rd, conds in decision_table(g, refusal_kinds) if rd.expr is not None]
    for _ in range(depth):
        out = []
        changed = False
        for (e, conds, rd) in rows:
            ph = [x for x in walk(e) if isinstance(x, tuple) and x and x[0] == "phi"]
            done = False
            for x in ph:
                l = x[1]
                defs = phi_defs(g, l)
                # only merge points: every definition lies on a path to this return and none is inside a loop
                if len(defs) < 2 or any(g.loop_of(bi) is not None for (_, _, bi) in defs):
                    continue
                for (de, dconds, bi) in defs:
                    out.append((_subst_phi(e, l, de), conds + [c for c in dconds if c not in conds], rd))
                changed = True
                done = True
                break
            if not done:
                out.append((e, conds, rd))
        rows = out
        if not changed or len(rows) > limit:
            break
    return rows


def edge_conditions(g, e):
    """conditions under which the branch of edge e is reached (for an edge borrowed from a helper: also the helper's)"""
    return block_conditions(g, e.block) + list(getattr(e, "inner_conds", ()) or ())


def strip_generics(p):
    """`a::B::<T, U>::c` -> `a::B::c` (call paths carry instantiations, function ids carry declarations)"""
    out, depth = [], 0
    i = 0
    while i < len(p):
        ch = p[i]
        if ch == "<" and (i >= 2 and p[i - 2:i] == "::"):
            depth += 1
            if depth == 1:
                out = out[:-2]
        elif ch == ">" and depth > 0:
            depth -= 1
            i += 1
            continue
        if depth == 0:
            out.append(ch)
        i += 1
    return "".join(out)


def _subst_cond(c, mapping):
    from expr import subst
    return tuple(subst(x, mapping) if isinstance(x, tuple) and x and isinstance(x[0], str) and x[0] not in ("Lt", "Le") else x for x in c)


def dominates_accepts_deep(g, e, refusal=("err",), bypass=None):
    """dominates_accepts for ordinary edges; for an edge borrowed from a helper: the `?` of the call dominates the caller's
    accepting returns AND the edge dominates the helper's own accepting returns (bypass applied to substituted conditions)"""
    if not getattr(e, "virtual", False):
        return g.dominates_accepts(e, refusal, bypass)
    class _Outer:
        pass
    o = _Outer()
    o.block, o.target, o.virtual, o.inner_dom = e.block, e.target, False, True
    outer = g.dominates_accepts(o, refusal, bypass)
    if bypass is None:
        inner = e.home_g.dominates_accepts(e.home_edge, refusal)
    else:
        class _W:
            pass
        def bp(ed):
            w = _W()
            w.cond = _subst_cond(ed.cond, e.mapping)
            w.block, w.target = ed.block, ed.target
            return bypass(w)
        inner = e.home_g.dominates_accepts(e.home_edge, refusal, bp)
    return outer and inner
