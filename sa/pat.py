"""Pattern combinators over expression terms (see expr.py).  A pattern is a callable term -> bool."""
from expr import walk, fmt


def _callpath_matches(path, full, suffix):
    # suffix such as "verifier_len" (item name), "Flp::verifier_len", or a full path
    for p in (path, full):
        if p is None:
            continue
        if p == suffix or p.endswith("::" + suffix):
            return True
        # strip generic args in segments: `Foo::<T>::bar` -> `Foo::bar`
    return False


def Any():
    return lambda e: True


def Param(name=None, idx=None):
    """function parameter, by source name and/or by position (idx = MIR local, self/first arg = 1)"""
    def m(e):
        return isinstance(e, tuple) and e[0] == "param" and (name is None or e[1] == name) and (idx is None or e[2] == idx)
    m.desc = "param %s" % (name or idx)
    return m


def Arg(idx):
    return Param(idx=idx)


def Upvar(name=None):
    def m(e):
        return isinstance(e, tuple) and e[0] == "upvar" and (name is None or e[1] == name)
    return m


def Var(name):
    """a named thing: parameter, captured variable or mutable local with that source name"""
    def m(e):
        if not isinstance(e, tuple):
            return False
        if e[0] == "param" and e[1] == name:
            return True
        if e[0] == "upvar" and e[1] == name:
            return True
        if e[0] == "phi" and e[2] == name:
            return True
        return False
    return m


def Lit(value=None):
    def m(e):
        if not isinstance(e, tuple):
            return False
        if e[0] == "lit":
            return value is None or e[1] == value
        if e[0] == "symlit":
            return value is None or e[2] == value
        return False
    return m


def Sym(suffix):
    def m(e):
        if not isinstance(e, tuple):
            return False
        if e[0] in ("sym", "symlit"):
            return e[1] == suffix or e[1].endswith("::" + suffix) or e[1].endswith(suffix)
        return False
    return m


def Call(suffix, *argpats):
    """call whose callee path ends with ::suffix; argpats (optional) match positionally (either order for the two
    operands of commutative integer methods such as min / wrapping_add / overflowing_add)"""
    def m(e):
        if not isinstance(e, tuple) or e[0] != "call":
            return False
        if not (_callpath_matches(e[1], e[3], suffix) or _callpath_matches(e[4], None, suffix)):
            return False
        if argpats:
            if len(e[2]) < len(argpats):
                return False
            if all(p(a) for p, a in zip(argpats, e[2])):
                return True
            if len(argpats) == 2 and len(e[2]) == 2 and suffix.split("::")[-1] in COMMUTATIVE_CALLS:
                return argpats[0](e[2][1]) and argpats[1](e[2][0])
            return False
        return True
    m.desc = "call %s" % suffix
    return m


def Len(p=None):
    def m(e):
        return isinstance(e, tuple) and e[0] == "len" and (p is None or p(e[1]))
    return m


def Field(base=None, name=None, variant=None):
    """struct field `base.name` or enum-variant field `(base as variant).name`"""
    def m(e):
        if not isinstance(e, tuple):
            return False
        if e[0] == "field":
            return variant is None and (name is None or e[2] == name) and (base is None or base(e[1]))
        if e[0] == "vfield":
            return (name is None or e[3] == name) and (variant is None or e[2] == variant) and (base is None or base(e[1]))
        return False
    return m


def Index(base=None, idx=None):
    def m(e):
        return isinstance(e, tuple) and e[0] == "index" and (base is None or base(e[1])) and (idx is None or idx(e[2]))
    return m


COMMUTATIVE_OPS = ("Add", "Mul", "BitAnd", "BitOr", "BitXor", "Eq", "Ne")
COMMUTATIVE_CALLS = ("min", "max", "wrapping_add", "wrapping_mul", "overflowing_add", "overflowing_mul", "checked_add", "checked_mul",
                     "saturating_add", "saturating_mul")


def Bin(op, a=None, b=None, commutative=None):
    """binary operator term; operand order is ignored for commutative operators unless commutative=False is given"""
    if commutative is None:
        commutative = op in COMMUTATIVE_OPS

    def m(e):
        if not (isinstance(e, tuple) and e[0] == "bin" and e[1] == op):
            return False
        if (a is None or a(e[2])) and (b is None or b(e[3])):
            return True
        if commutative and (a is None or a(e[3])) and (b is None or b(e[2])):
            return True
        return False
    return m


ERR_WRAPPERS = ("map_err", "ok_or_else", "ok_or")


def success_core(e):
    """for the success payload of a fallible value: (inner, [inner with its error-only wrappers map_err / ok_or / ok_or_else removed]).
    `x?`, `match x { Ok(v) => v, Err(..) => return .. }` and `x.map_err(f)?` all have the payload of x."""
    if not isinstance(e, tuple):
        return None
    if e[0] == "try":
        inner = e[1]
    elif e[0] == "vfield" and e[2] in ("Ok", "Some", "Continue") and str(e[3]) == "0":
        inner = e[1]
    else:
        return None
    outs = [inner]
    x = inner
    while isinstance(x, tuple) and x[0] == "call" and str(x[1]).split("::")[-1] in ERR_WRAPPERS and x[2]:
        x = x[2][0]
        outs.append(x)
    return outs


def synthetic_wrappers(x):
    """x as the first argument of each error-only wrapper, so that a pattern written for `x.ok_or_else(..)` also accepts the
    explicit `match x { None => return Err(..), Some(v) => v }`"""
    return [("call", "synthetic::" + w, (x, ("unk", "_")), None, None) for w in ERR_WRAPPERS]


def Try(p=None):
    """the success payload of a fallible value, in any spelling: `e?`, an explicit match on Ok/Some, with or without map_err /
    ok_or(_else) in between"""
    def m(e):
        cs = success_core(e)
        if cs is None:
            return False
        if p is None:
            return True
        for x in cs:
            if p(x):
                return True
        return any(p(w) for w in synthetic_wrappers(cs[-1]))
    return m


def Cast(p=None):
    def m(e):
        return isinstance(e, tuple) and e[0] in ("cast", "conv") and (p is None or p(e[1]))
    return m


def ThroughCasts(p):
    """p modulo casts/conversions/try wrappers"""
    def m(e):
        while isinstance(e, tuple) and e[0] in ("cast", "conv", "try"):
            if p(e):
                return True
            e = e[1]
        return p(e)
    return m


def Mentions(p):
    def m(e):
        return any(p(x) for x in walk(e))
    return m


def Or(*ps):
    return lambda e: any(p(e) for p in ps)


def And(*ps):
    return lambda e: all(p(e) for p in ps)


def Not(p):
    return lambda e: not p(e)


def Agg(label_suffix, *ops):
    def m(e):
        if not (isinstance(e, tuple) and e[0] == "agg"):
            return False
        if not (e[1] == label_suffix or e[1].endswith("::" + label_suffix) or e[1].endswith(label_suffix)):
            return False
        if ops:
            return len(e[2]) >= len(ops) and all(p(a) for p, a in zip(ops, e[2]))
        return True
    return m


def Local(idx):
    """parameter `idx` (MIR local), also when it is re-assigned / written through (phi term)"""
    def m(e):
        return isinstance(e, tuple) and ((e[0] == "param" and e[2] == idx) or (e[0] == "phi" and e[1] == idx))
    return m


def AnyLocal():
    """any local variable (parameter or re-assigned local); use with equality checks to bind identity, never names"""
    def m(e):
        return isinstance(e, tuple) and e[0] in ("phi", "param")
    return m


def Same(ref):
    return lambda e: e == ref


def RangeP(lo, hi_inclusive):
    """`lo ..= hi`  or  `lo .. hi + 1`"""
    def m(e):
        if isinstance(e, tuple) and e[0] == "call" and "RangeInclusive" in e[1] and e[1].endswith("::new") and len(e[2]) == 2:
            return lo(e[2][0]) and hi_inclusive(e[2][1])        # `a..=b` is RangeInclusive::new(a, b)
        if not (isinstance(e, tuple) and e[0] == "agg" and len(e) > 2 and len(e[2]) >= 2):
            return False
        if e[1].endswith("RangeInclusive"):
            return lo(e[2][0]) and hi_inclusive(e[2][1])
        if e[1].endswith("ops::Range"):
            return lo(e[2][0]) and Bin("Add", hi_inclusive, Lit(1))(e[2][1])
        return False
    return m


_SWAPPED = {"Eq": "Eq", "Ne": "Ne", "Lt": "Gt", "Gt": "Lt", "Le": "Ge", "Ge": "Le"}


def Cmp(op, a=None, b=None):
    """comparison term `a <op> b`, also when written with the operands exchanged (`b <swapped op> a`)"""
    def m(e):
        if not (isinstance(e, tuple) and e[0] == "bin"):
            return False
        if e[1] == op and (a is None or a(e[2])) and (b is None or b(e[3])):
            return True
        return e[1] == _SWAPPED.get(op) and (a is None or a(e[3])) and (b is None or b(e[2]))
    return m
