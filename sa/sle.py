"""Forward symbolic evaluation of straight-line MIR (no branches, no loops): every local is replaced by the
term that defines it at that program point, so re-assigned variables (`result`, `hi`, `lo`, `cc`, ...) get
exact single-assignment terms.  Crate-local closures are inlined.  Nothing is executed: the result is a term.

Binary operator terms carry the machine type of the operation as a 5th component:
    ("bin", op, a, b, type-string)
and `as_` conversions become ("as", arg, source-type, target-type)."""
from expr import ExprBuilder, fmt


class NotStraightLine(Exception):
    pass


class SL(ExprBuilder):
    def __init__(self, prog, fn, args=None, depth=0):
        ExprBuilder.__init__(self, prog, fn)
        self.env = {}
        self.depth = depth
        b = self.body
        for l in range(1, b.argc + 1):
            if args is not None and l - 1 < len(args):
                self.env[l] = args[l - 1]
            else:
                name = b.var_names.get(l) or ("_%d" % l)
                self.env[l] = ("param", name, l)

    # every read goes through the environment
    def local(self, l, depth=0):
        if l in self.env:
            return self.env[l]
        return ("undef", l)

    def opty(self, op):
        if op.kind in ("copy", "move"):
            l, proj = op.place
            if not [p for p in proj if p != "*"]:
                return self.tystr(self.body.locals[l]).lstrip("&").replace("mut ", "")
            for p in reversed(proj):
                if isinstance(p, tuple) and p[0] == "f" and len(p) > 3 and p[3] is not None:
                    return self.tystr(p[3])
            return "?"
        return self.tystr(op.ty) if op.ty is not None else "?"

    def call_expr(self, t, depth=0):
        c = t.callee
        dest_ty = self.tystr(self.body.locals[t.dest[0]]) if t.dest is not None else "?"
        if c.name == "as_" and len(t.args) == 1:
            return ("as", self.operand(t.args[0]), self.opty(t.args[0]), dest_ty)
        e = ExprBuilder.call_expr(self, t, depth)
        if e[0] == "bin" and len(e) == 4:
            ty = self.opty(t.args[0])
            return e + (ty,)
        # inline crate-local closures
        did = c.local_did
        if did is not None and self.depth < 4:
            cf = self.prog.by_did.get(did)
            if cf is not None and cf.kind == "Closure" and cf.body is not None:
                args = [self.operand(a) for a in t.args]
                spread = [args[0]]
                if len(args) > 1 and args[1][0] == "agg" and args[1][1] == "tuple":
                    spread += list(args[1][2])
                else:
                    spread += args[1:]
                sub = SL(self.prog, cf, spread, self.depth + 1)
                return sub.run()
        return e

    def rvalue(self, rv, depth=0):
        e = ExprBuilder.rvalue(self, rv, depth)
        if e[0] == "bin" and len(e) == 4 and rv.kind == "bin":
            return e + (self.opty(rv.ops[0]),)
        return e

    def assign(self, place, val):
        l, proj = place
        proj = [p for p in proj if p != "*"]
        if not proj:
            self.env[l] = val
            return
        if len(proj) == 1 and proj[0][0] == "f":
            cur = self.env.get(l)
            idx = proj[0][1]
            if cur is None or not (cur[0] == "agg" and cur[1] == "tuple"):
                cur = ("agg", "tuple", tuple(("undef", l, i) for i in range(idx + 1)))
            elems = list(cur[2])
            while len(elems) <= idx:
                elems.append(("undef", l, len(elems)))
            elems[idx] = val
            self.env[l] = ("agg", "tuple", tuple(elems))
            return
        raise NotStraightLine("unsupported assignment target %r in %s" % (place, self.fn.id))

    def run(self):
        b = self.body
        bi = 0
        seen = set()
        while True:
            if bi in seen:
                raise NotStraightLine("loop in %s" % self.fn.id)
            seen.add(bi)
            blk = b.blocks[bi]
            for s in blk.stmts:
                if s.kind == "assign":
                    self.assign(s.place, self.rvalue(s.rv))
            t = blk.term
            if t.kind == "return":
                return self.env.get(0, ("agg", "tuple", ()))
            if t.kind == "call":
                if t.target is None:
                    raise NotStraightLine("diverging call in %s" % self.fn.id)
                self.assign(t.dest, self.call_expr(t))
                bi = t.target
            elif t.kind in ("goto", "drop", "assert"):
                bi = t.targets[0]
            else:
                raise NotStraightLine("%s terminator in %s" % (t.kind, self.fn.id))


def straight_line_term(prog, fn):
    return SL(prog, fn).run()
