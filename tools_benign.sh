#!/bin/bash
# apply each behaviour-preserving patch under /verif/benign to /repo, run every check, expect NO violation; revert
cd /verif
export VERIF_EVIDENCE_DIR=$(mktemp -d /tmp/verif-ev.XXXXXX)
for p in ${@:-benign/*.diff benign/agents/*.diff}; do
  echo "== $p"
  git -C /repo apply $PWD/$p || { echo "  does not apply"; continue; }
  for id in $(python3 -c "import json;print(' '.join(c['property_id'] for c in json.load(open('MANIFEST.json'))['checks']))"); do
    ./check $id 2>&1 | grep -E "rule=|INFRA" | cut -c1-230
  done
  git -C /repo reset -q --hard
done
rm -rf "$VERIF_EVIDENCE_DIR"
