#!/bin/bash
# tools_try4.sh <ID> : run the property's check against every round-4 agent patch /tmp/mut6/<ID>x/out/m*/patch.diff (scratch copies)
ID=$1
for p in /tmp/mut6/${ID}x/out/m*/patch.diff; do
  m=$(basename $(dirname $p))
  echo "== $ID $m: $(head -1 $(dirname $p)/README.md | cut -c1-150)"
  ./tools_try_scratch.sh $p $ID 2>&1 | grep -E "rule=|quick:|INFRA|does not apply" | cut -c1-260
done
